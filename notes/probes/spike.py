import os, time, json, hashlib, collections, numpy as np
import hypothesis
from hypothesis import given, settings, strategies as st, HealthCheck, Phase, seed
from toqito.perms import permute_systems
cnt=collections.Counter(); seen=set(); T0=time.time()
@st.composite
def case(draw):
    n=draw(st.integers(2,5))
    def dims():
        out=[];prod=1
        for i in range(n):
            d=draw(st.integers(1,max(1,min(4,64//prod)))); out.append(d); prod*=d
        if prod<2: out[draw(st.integers(0,n-1))]=2
        return out
    dr=dims()
    square=draw(st.booleans())
    dc=dr if square else dims()
    perm=draw(st.permutations(list(range(n))))
    inv=draw(st.booleans()); row_only=draw(st.booleans())
    R=int(np.prod(dr)); C=int(np.prod(dc))
    src=draw(st.sampled_from(['label','small','prng'] if R*C<=144 else ['label','prng']))
    if src=='small':
        ents=draw(st.lists(st.integers(-3,3),min_size=R*C,max_size=R*C))
    elif src=='prng': ents=draw(st.integers(0,2**63-1))
    else: ents=None
    return dict(n=n,dr=dr,dc=dc,perm=perm,inv=inv,row_only=row_only,src=src,ents=ents)
def build(c):
    R=int(np.prod(c['dr']));C=int(np.prod(c['dc']))
    if c['src']=='label': return np.arange(R*C).reshape(R,C)
    if c['src']=='small': return np.array(c['ents']).reshape(R,C)
    return np.random.Generator(np.random.PCG64(c['ents'])).normal(size=(R,C))
def ref(X,p,dr,dc,row_only):
    n=len(dr); T=X.reshape(list(dr)+list(dc))
    axes=list(p)+([n+i for i in p] if not row_only else [n+i for i in range(n)])
    T=T.transpose(axes); return T.reshape(X.shape[0],X.shape[1]) if row_only else T.reshape(int(np.prod([dr[i] for i in p])),int(np.prod([dc[i] for i in p])))
@seed(int(os.environ.get('VERIF_SEED','1')))
@settings(max_examples=int(os.environ.get('N','2000')),deadline=None,database=None,suppress_health_check=list(HealthCheck),report_multiple_bugs=False)
@given(case())
def test(c):
    R=int(np.prod(c['dr']));C=int(np.prod(c['dc']))
    hypothesis.assume(2<=R<=64 and 2<=C<=64 and c['n']>=2)
    X=build(c)
    p=c['perm'] if not c['inv'] else list(np.argsort(c['perm']))
    dim=[c['dr'],c['dc']]
    out=permute_systems(X,c['perm'],dim,c['row_only'],c['inv'])
    exp=ref(X,p,c['dr'],c['dc'],c['row_only'])
    cnt['eval']+=1
    nt = len(set(c['dr']))>1 and list(np.argsort(c['perm']))!=list(c['perm']) 
    if nt:
        h=hashlib.sha1(json.dumps(c,sort_keys=True,default=int).encode()).hexdigest(); seen.add(h)
    assert out.shape==exp.shape and np.array_equal(out,exp) if c['src']!='prng' else np.allclose(out,exp), c
test()
print(dict(cnt),'distinct nontrivial',len(seen),'time',round(time.time()-T0,1))
