import numpy as np, warnings, cvxpy, time
warnings.filterwarnings('ignore')
from toqito.nonlocal_games.xor_game import XORGame
rng=np.random.default_rng(8)
def exact_prob(q0,q1,rng,k=8):
    c=rng.multinomial(2**k,np.ones(q0*q1)/(q0*q1)).reshape(q0,q1); return c/2**k
def tsirelson_cert(D):
    m,n=D.shape
    G=cvxpy.Variable((m+n,m+n),symmetric=True)
    W=np.block([[np.zeros((m,m)),D],[D.T,np.zeros((n,n))]])/2
    p=cvxpy.Problem(cvxpy.Maximize(cvxpy.trace(W@G)),[G>>0,cvxpy.diag(G)==1]); p.solve(solver='CLARABEL')
    Gv=(G.value+G.value.T)/2
    w,V=np.linalg.eigh(Gv); w=np.clip(w,0,None); Vec=V*np.sqrt(w)  # rows are vectors
    norms=np.linalg.norm(Vec,axis=1); Vec=Vec/np.where(norms>0,norms,1)[:,None]
    lb=np.sum(D*(Vec[:m]@Vec[m:].T))
    # dual: min (sum u+ sum v)/2 st [[diag u, -D],[-D^T, diag v]]>=0
    u=cvxpy.Variable(m);v=cvxpy.Variable(n)
    pd=cvxpy.Problem(cvxpy.Minimize((cvxpy.sum(u)+cvxpy.sum(v))/2),[cvxpy.bmat([[cvxpy.diag(u),-D],[-D.T,cvxpy.diag(v)]])>>0]); pd.solve(solver='CLARABEL')
    uu,vv=u.value,v.value
    M=np.block([[np.diag(uu),-D],[-D.T,np.diag(vv)]]); lam=np.linalg.eigvalsh(M)[0]
    shift=max(0,-lam)+1e-12
    ub=(np.sum(uu+shift)+np.sum(vv+shift))/2
    return lb,ub
worst=0
for t in range(40):
    q0,q1=int(rng.integers(1,6)),int(rng.integers(1,6))
    prob=exact_prob(q0,q1,rng); pred=rng.integers(0,2,size=(q0,q1))
    D=prob*(-1.0)**pred
    lb,ub=tsirelson_cert(D)
    try:
        g=XORGame(prob,pred); qv=g.quantum_value()
    except Exception as e: print('EXC',q0,q1,repr(e)[:80]); continue
    bias=2*qv-1   # quantum bias = sum D <u,v>
    worst=max(worst,max(lb-bias,bias-ub))
    if t<8:
        npa=g.to_nonlocal_game().commuting_measurement_value_upper_bound(1)
        print((q0,q1),'toqito',round(qv,6),'cert',[round(0.5+lb/2,6),round(0.5+ub/2,6)],'npa1',round(float(npa),6),'cl',round(g.classical_value(),6))
print('worst violation of interval',worst)
