import numpy as np, warnings
warnings.filterwarnings('ignore')
from toqito.rand import *
from toqito.states import werner, isotropic, horodecki, gen_bell, mutually_unbiased_basis
from toqito.state_props import is_ppt
for args in (([2,3],),([2,3],False,1),(6,False,0),([3,3],True,2),(3,False,1),(4,False,2)):
    try:
        v=random_state_vector(*args,seed=1); print(args,v.shape,round(float(np.linalg.norm(v)),6))
    except Exception as e: print(args,'EXC',repr(e)[:80])
print(np.allclose(random_unitary(3,seed=5),random_unitary(3,seed=5)), np.allclose(random_unitary([3,3],True,seed=5).imag,0))
for kp in (1,2,3):
    r=random_density_matrix(3,False,kp,seed=2); print('rank',np.linalg.matrix_rank(r),kp, np.isclose(np.trace(r),1))
try: print(random_density_matrix(3,False,2,'bures',seed=1).shape)
except Exception as e: print('bures kp EXC',repr(e)[:80])
print(np.allclose(werner(3,[0.3]),werner(3,0.3)))
for d in (2,3):
    for a in (1/d-0.05,1/d+0.05): print('werner',d,round(a,3),is_ppt(werner(d,a)))
    for a in (1/(d+1)-0.05,1/(d+1)+0.05): print('iso',d,round(a,3),is_ppt(isotropic(d,a)))
print(is_ppt(horodecki(0.5)), is_ppt(horodecki(0.5,[2,4]),2,[2,4]))
m=mutually_unbiased_basis(3); print(len(m))
