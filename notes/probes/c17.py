import numpy as np, itertools, warnings
warnings.filterwarnings('ignore')
from toqito.matrices import *
from toqito.states import *
from toqito.state_props import is_mutually_unbiased_basis, is_unextendible_product_basis, is_product
for d in (2,3,4,5):
    X=gen_pauli_x(d);Z=gen_pauli_z(d);F=fourier(d); w=np.exp(2j*np.pi/d)
    print(d,'weyl ZX=wXZ',np.allclose(Z@X,w*X@Z),'FXF†=Z',np.allclose(F@X@F.conj().T,Z),'FXF†=Z†',np.allclose(F@X@F.conj().T,Z.conj().T),'F†XF=Z',np.allclose(F.conj().T@X@F,Z), 'Funit',np.allclose(F@F.conj().T,np.eye(d)))
    G=[gen_pauli(a,b,d) for a in range(d) for b in range(d)]
    gram=np.array([[np.trace(A.conj().T@B) for B in G] for A in G]); print('  genpauli orth',np.allclose(gram,d*np.eye(d*d)))
    GM=[gen_gell_mann(a,b,d) for a in range(d) for b in range(d)]
    gram=np.array([[np.trace(A.conj().T@B) for B in GM] for A in GM]); print('  gengm orth offdiag zero',np.allclose(gram-np.diag(np.diag(gram)),0), np.round(np.diag(gram).real,3)[:4])
    B=[gen_bell(a,b,d) for a in range(d) for b in range(d)]
    gram=np.array([[np.trace(A.conj().T@C) for C in B] for A in B]); print('  genbell orthonormal',np.allclose(gram,np.eye(d*d)), B[0].shape)
for d in (2,3,5):
    m=mutually_unbiased_basis(d); print('mub',d,len(m),is_mutually_unbiased_basis(m))
try: mutually_unbiased_basis(4)
except Exception as e: print('mub4',type(e).__name__)
tiles=[tile(i) for i in range(5)]; print('tiles',is_unextendible_product_basis(tiles,[3,3])[0], np.allclose(np.array([[np.vdot(a,b) for b in tiles] for a in tiles]),np.eye(5)))
dom=[domino(i) for i in range(9)]; print('domino',np.allclose(np.array([[np.vdot(a,b) for b in dom] for a in dom]),np.eye(9)), all(is_product(v,[3,3])[0] for v in dom))
print(ghz(3,3).shape, w_state(3).ravel(), dicke(3,1))
gm=[gell_mann(i) for i in range(9)]; gram=np.array([[np.trace(A.conj().T@B) for B in gm] for A in gm]); print('gell_mann',np.round(np.diag(gram).real,2), np.allclose(gram-np.diag(np.diag(gram)),0))
print(hadamard(2).shape, np.allclose(hadamard(2),np.kron(hadamard(1),hadamard(1))), cyclic_permutation_matrix(4,1)@np.eye(4)[:,0])
print([b.shape for b in standard_basis(3)], [b.shape for b in standard_basis(3,True)])
print(w_state(3,[1,2,3]).ravel())
