import numpy as np, time, warnings
warnings.filterwarnings('ignore')
from toqito.channel_metrics import *
from toqito.channel_ops import kraus_to_choi
from toqito.rand import random_unitary
from toqito.channels import depolarizing
rng=np.random.default_rng(3)
def hull_dist(ev):
    # distance from origin to convex hull of unit-modulus points
    ang=np.sort(np.angle(ev)); gaps=np.diff(np.concatenate([ang,[ang[0]+2*np.pi]]))
    g=gaps.max()
    return 0.0 if g<=np.pi else np.cos((2*np.pi-g)/2)
for d in (2,3):
    for t in range(3):
        U=random_unitary(d,seed=int(rng.integers(1e6)));V=random_unitary(d,seed=int(rng.integers(1e6)))
        JU=kraus_to_choi([U]);JV=kraus_to_choi([V])
        t0=time.time(); dd=diamond_distance(JU,JV); dt=time.time()-t0
        delta=hull_dist(np.linalg.eigvals(U.conj().T@V))
        t1=time.time(); cf=channel_fidelity(JU,JV); dt2=time.time()-t1
        print(d,'diamond',round(float(dd),5),'closed',round(2*np.sqrt(1-delta**2),5),round(dt,2),'chfid',round(float(cf),5),round(dt2,2))
J=depolarizing(2,0.3)
for c in (1,2,-1,0.5,-3):
    try: print('homog',c,completely_bounded_trace_norm(c*J))
    except Exception as e: print('EXC',c,repr(e)[:80])
print(completely_bounded_spectral_norm(J), completely_bounded_spectral_norm(2*J))
