import numpy as np, warnings, time, signal
warnings.filterwarnings('ignore')
from toqito.matrix_props import sk_operator_norm, is_block_positive
from toqito.perms import swap_operator
rng=np.random.default_rng(4)
class TO(Exception): pass
def h(s,f): raise TO()
signal.signal(signal.SIGALRM,h)
def rvec(d1,d2,k):
    v=0
    for _ in range(k):
        a=rng.normal(size=d1)+1j*rng.normal(size=d1); b=rng.normal(size=d2)+1j*rng.normal(size=d2); v=v+np.kron(a,b)
    return v/np.linalg.norm(v)
for t in range(14):
    d1,d2=[(2,2),(2,3),(3,3),(3,2),(2,4),(3,4),(4,4)][t%7]
    k=int(rng.integers(1,min(d1,d2)+1)); kind=t%3
    N=d1*d2
    G=rng.normal(size=(N,N))+1j*rng.normal(size=(N,N))
    if kind==0: X=G@G.conj().T
    elif kind==1: X=(G+G.conj().T)/2
    else: X=G
    np.random.seed(t)
    signal.alarm(120); t0=time.time()
    try:
        lb,ub=sk_operator_norm(X,k,[d1,d2],effort=1)
    except TO: print('TIMEOUT',d1,d2,k,kind); continue
    except Exception as e: print('EXC',d1,d2,k,kind,type(e).__name__,str(e)[:60]); continue
    finally: signal.alarm(0)
    dt=time.time()-t0
    best=0
    for _ in range(300):
        v=rvec(d1,d2,k); w=rvec(d1,d2,k) if kind==2 else v
        best=max(best,abs(v.conj()@X@w))
    print((d1,d2),k,['psd','herm','gen'][kind],round(float(lb),4),round(float(ub),4),'sampled',round(float(best),4),'opnorm',round(float(np.linalg.norm(X,2)),4),round(dt,2), 'OK' if best<=ub+1e-6 and lb<=ub+1e-6 else 'BAD')
print(is_block_positive(swap_operator(3),1), is_block_positive(swap_operator(3),2), is_block_positive(swap_operator(2),1))
