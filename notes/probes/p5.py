import numpy as np, warnings, itertools, scipy.linalg as sl
warnings.filterwarnings('ignore')
from toqito.matrix_props import *
from toqito.state_props import is_pure, is_mixed, is_ensemble, is_mutually_orthogonal, is_mutually_unbiased_basis
rng=np.random.default_rng(9)
def cplx(*s,cp=True): return rng.normal(size=s)+(1j*rng.normal(size=s) if cp else 0)
def unitary(n,cp=True): return np.linalg.qr(cplx(n,n,cp=cp))[0]
res={}
def rec(name,truth,val):
    res.setdefault((name,truth),[]).append(bool(val)==truth if not isinstance(val,Exception) else repr(val)[:40])
for trial in range(60):
    n=int(rng.integers(1,6)); cp=bool(trial%2)
    M=cplx(n,n,cp=cp); H=(M+M.conj().T)/2; U=unitary(n,cp); eps=1e-3*max(1,np.linalg.norm(M))
    E=np.zeros((n,n),dtype=complex if cp else float); 
    if n>1: E[0,1]=eps
    else: E[0,0]=eps*(1j if cp else 1)
    def t(name,pos,neg,fn=None,**kw):
        f=fn or globals()[name]
        for truth,x in ((True,pos),(False,neg)):
            if x is None: continue
            try: rec(name,truth,f(x,**kw) if not isinstance(x,tuple) else f(*x,**kw))
            except Exception as e: rec(name,truth,e)
    t('is_hermitian',H,H+E if n>1 else H+1j*eps)
    t('is_anti_hermitian',1j*H,1j*H+ (E if n>1 else eps))
    S=(M+M.T)/2; t('is_symmetric',S,S+E if n>1 else None)
    Nn=U@np.diag(cplx(n,cp=cp))@U.conj().T; t('is_normal',Nn, Nn+ (E*50 if n>1 else 0) if n>1 else None)
    t('is_unitary',U,U+E if n>1 else U*(1+1e-3))
    P=H@H.conj().T+1e-2*np.eye(n); P=(P+P.conj().T)/2
    t('is_positive_definite',P,P-(np.linalg.eigvalsh(P)[0]+1e-3)*np.eye(n))
    r=int(rng.integers(1,n+1)); G=cplx(n,r,cp=cp); Q=G@G.conj().T; Q=(Q+Q.conj().T)/2
    t('is_positive_semidefinite',Q,Q-(np.linalg.eigvalsh(Q)[0]+1e-3)*np.eye(n))
    Pr=U[:,:r]@U[:,:r].conj().T; t('is_projection',Pr,Pr+1e-3*np.eye(n))
    Sinv=cplx(n,n,cp=cp)+3*np.eye(n); Id=Sinv@np.diag([1]*r+[0]*(n-r))@np.linalg.inv(Sinv); t('is_idempotent',Id,Id+1e-3*np.eye(n))
    t('is_identity',np.eye(n),np.eye(n)+E if n>1 else np.eye(1)*(1+1e-3))
    D=np.diag(cplx(n,cp=cp)); t('is_diagonal',D,D+E if n>1 else None)
    rho=Q/np.trace(Q).real; t('is_density',rho,rho*(1+1e-3))
    t('is_square',M,cplx(n,n+1))
    perm=np.eye(n)[rng.permutation(n)]; t('is_permutation',perm,perm*2 if True else None)
    c=cplx(n,cp=cp); C=sl.circulant(c); 
    Cn=C.copy(); 
    if n>1: Cn[0,1]+=1e-3
    t('is_circulant',C,Cn if n>1 else None)
    ds=sum(w*np.eye(n)[rng.permutation(n)] for w in rng.dirichlet(np.ones(3)))
    t('is_stochastic',ds,ds+1e-3*np.eye(n),mat_type='doubly')
    rs=rng.random((n,n)); rs/=rs.sum(1,keepdims=True); t('is_stochastic_right',rs,rs*(1+1e-3),fn=is_stochastic,mat_type='right')
    t('is_nonnegative',rng.random((n,n)),rng.random((n,n))-np.eye(n)*1.5)
    A=U@np.diag(rng.normal(size=n))@U.conj().T; B=U@np.diag(rng.normal(size=n))@U.conj().T
    t('is_commuting',(A,B),(A,B+E+E.conj().T) if n>1 else None)
    t('is_orthonormal',np.array([U[:,i] for i in range(n)]) if n>1 else None, np.array([U[:,i]*(1+1e-3*(i==0)) for i in range(n)]) if n>1 else None)
    t('is_linearly_independent',[U[:,i] for i in range(n)],[U[:,0],2*U[:,0]])
    xs=np.sort(rng.random(n))+np.arange(n); V=np.vander(xs,increasing=True); 
    Vn=V.copy(); Vn[0,0]=-1e-2
    t('is_totally_positive',V,Vn)
    p=int(rng.integers(0,n+1)); q=n-p
    J=np.diag([1]*p+[-1]*q).astype(float)
    # pseudo-unitary: exp(J K) with K ... use block: U1 (+) U2 is pseudo unitary
    if p>0 and q>0: PU=sl.block_diag(unitary(p,cp),unitary(q,cp))
    elif p>0: PU=unitary(p,cp)
    else: PU=unitary(q,cp)
    t('is_pseudo_unitary',(PU,p,q),(PU*(1+1e-3),p,q))
    eta=J; Hh=(M+M.conj().T)/2; PH=np.linalg.inv(eta)@Hh  # eta PH eta^-1 = Hh eta^-1 ; PH^† = Hh eta^-1 → ok
    t('is_pseudo_hermitian',(PH,eta),(PH+ (E if n>1 else 1j*eps),eta))
    dd=M.copy(); np.fill_diagonal(dd,np.abs(M).sum(1)+1); t('is_diagonally_dominant',dd,M-np.diag(np.diag(M)))
    pure=np.outer(U[:,0],U[:,0].conj()); t('is_pure',pure,rho if r>1 else None)
    if n>1: t('is_mutually_orthogonal',[U[:,i] for i in range(n)],[U[:,0],U[:,0]+1e-3*U[:,1]])
for k in sorted(res): 
    v=res[k]; bad=[x for x in v if x is not True]
    print(k,len(v),'ALLOK' if not bad else bad[:3])
