import numpy as np, io, contextlib, collections
from toqito.matrix_ops import vectors_from_gram_matrix, vectors_to_gram_matrix
rng=np.random.default_rng(3)
cnt=collections.Counter()
for t in range(400):
    n=int(rng.integers(1,6)); r=int(rng.integers(1,n+1)); cp=bool(t%2)
    U=np.linalg.qr(rng.normal(size=(n,n))+(1j*rng.normal(size=(n,n)) if cp else 0))[0]
    ev=np.zeros(n); 
    mode=t%3
    if mode==0: ev[:r]=rng.random(r)+0.1
    elif mode==1: ev[:r]=1.0   # repeated
    else: ev[:r]=rng.integers(1,3,size=r)
    G=(U*ev)@U.conj().T; G=(G+G.conj().T)/2
    buf=io.StringIO()
    with contextlib.redirect_stdout(buf):
        try: vs=vectors_from_gram_matrix(G)
        except Exception as e: cnt['exc',type(e).__name__]+=1; continue
    path='eig' if buf.getvalue() else 'chol'
    G2=vectors_to_gram_matrix(vs)
    ok=np.allclose(G2,G,atol=1e-7)
    cnt[(path,cp,'full' if r==n else 'deficient',mode==1 or mode==2, ok)]+=1
for k,v in sorted(cnt.items(),key=str): print(k,v)
