import numpy as np, itertools, functools
from toqito.channels import partial_trace, partial_transpose, realignment
import cvxpy
rng=np.random.default_rng(1)
def ref_pt(X,S,dr,dc):
    n=len(dr); T=X.reshape(list(dr)+list(dc))
    axes=list(range(2*n))
    for s in S: axes[s],axes[n+s]=axes[n+s],axes[s]
    T=T.transpose(axes)
    ndr=[dc[i] if i in S else dr[i] for i in range(n)]; ndc=[dr[i] if i in S else dc[i] for i in range(n)]
    return T.reshape(int(np.prod(ndr)),int(np.prod(ndc)))
cnt=0
for t in range(600):
    n=rng.integers(1,5); sq=bool(rng.integers(2))
    lo=1 if sq else 2
    dr=[int(x) for x in rng.integers(lo,4,size=n)]
    dc=dr if sq else [int(x) for x in rng.integers(lo,4,size=n)]
    R=int(np.prod(dr));C=int(np.prod(dc))
    if R<2 or C<2: continue
    X=rng.normal(size=(R,C))+1j*rng.normal(size=(R,C))
    k=rng.integers(1,n+1); S=[int(s) for s in rng.permutation(n)[:k]]
    dimarg = dr if (sq and rng.integers(2)) else [dr,dc]
    try:
        out=partial_transpose(X,S,dimarg)
    except Exception as e:
        print('EXC',dr,dc,S,type(dimarg[0]),repr(e)); continue
    exp=ref_pt(X,S,dr,dc); cnt+=1
    if out.shape!=exp.shape or not np.allclose(out,exp): print('BAD',dr,dc,S,out.shape,exp.shape)
print(cnt)
# realignment
for t in range(100):
    a,b,c,d=[int(x) for x in rng.integers(2,5,size=4)]
    A=rng.normal(size=(a,c));B=rng.normal(size=(b,d))
    X=np.kron(A,B)
    try:
        R=realignment(X,[[a,b],[c,d]])
        exp=np.outer(A.reshape(-1),B.reshape(-1))
        if R.shape!=exp.shape or not np.allclose(R,exp): print('BADR',a,b,c,d,R.shape,exp.shape)
    except Exception as e: print('EXCR',a,b,c,d,repr(e))
    if a==c and b==d:
        R2=realignment(X,[a,b]); 
        if not np.allclose(R2,exp): print('BADR2')
X=np.kron(rng.normal(size=(3,3)),rng.normal(size=(3,3))); print(np.linalg.matrix_rank(realignment(X)), np.linalg.matrix_rank(realignment(X,3)))
A=rng.normal(size=(2,2));B=rng.normal(size=(3,3)); print(np.allclose(realignment(np.kron(A,B),2),np.outer(A.ravel(),B.ravel())))
V=cvxpy.Variable((6,6)); X=rng.normal(size=(6,6)); V.value=X
print(np.allclose(partial_transpose(V,[0],[2,3]).value,ref_pt(X,[0],[2,3],[2,3])))
print(np.allclose(partial_transpose(X,0,[2,3]),ref_pt(X,[0],[2,3],[2,3])), np.allclose(partial_transpose(X,np.array([1]),np.array([2,3])),ref_pt(X,[1],[2,3],[2,3])))
