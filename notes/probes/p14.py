import numpy as np, warnings, collections
warnings.filterwarnings('ignore')
from toqito.state_props import is_product, concurrence, entanglement_of_formation, von_neumann_entropy, purity, schmidt_rank, l1_norm_coherence, negativity
from toqito.state_ops import schmidt_decomposition
rng=np.random.default_rng(14)
def rv(d): 
    v=rng.normal(size=d)+1j*rng.normal(size=d); return v/np.linalg.norm(v)
def unit(n): return np.linalg.qr(rng.normal(size=(n,n))+1j*rng.normal(size=(n,n)))[0]
cnt=collections.Counter()
for t in range(60):
    n=int(rng.integers(2,4)); dims=[int(x) for x in rng.integers(2,4,size=n)]
    vs=[rv(d) for d in dims]; v=vs[0]
    for w in vs[1:]: v=np.kron(v,w)
    try:
        ok,dec=is_product(v,dims); cnt['prod vec',bool(ok)]+=1
        rec=dec[0]
        for w in dec[1:]: rec=np.kron(rec,w)
        cnt['prod vec rebuild',np.allclose(rec.ravel(),v)]+=1
    except Exception as e: cnt['prod vec EXC',type(e).__name__,str(e)[:40]]+=1
    ent=v+0.2*rv(len(v)); ent/=np.linalg.norm(ent)
    try: cnt['ent vec',bool(is_product(ent,dims)[0])]+=1
    except Exception as e: cnt['ent vec EXC',type(e).__name__]+=1
    # operators
    ops=[rng.normal(size=(d,d))+1j*rng.normal(size=(d,d)) for d in dims]; O=ops[0]
    for w in ops[1:]: O=np.kron(O,w)
    try: cnt['prod op',bool(is_product(O,dims)[0])]+=1
    except Exception as e: cnt['prod op EXC',type(e).__name__,str(e)[:50]]+=1
    try: cnt['nonprod op',bool(is_product(O+0.3*np.eye(len(O)),dims)[0])]+=1
    except Exception as e: cnt['nonprod op EXC',type(e).__name__]+=1
# two-qubit mixed: concurrence LU invariance & EoF formula
for t in range(20):
    G=rng.normal(size=(4,3))+1j*rng.normal(size=(4,3)); rho=G@G.conj().T; rho/=np.trace(rho).real
    U=np.kron(unit(2),unit(2)); r2=U@rho@U.conj().T
    c1,c2=concurrence(rho),concurrence(r2); cnt['conc LU inv',abs(c1-c2)<1e-8]+=1
    e=entanglement_of_formation(rho); h=lambda x: 0 if x<=0 or x>=1 else -x*np.log2(x)-(1-x)*np.log2(1-x)
    cnt['eof wootters',abs(e-h((1+np.sqrt(1-c1**2))/2))<1e-8]+=1
    cnt['entropy LU',abs(von_neumann_entropy(rho)-von_neumann_entropy(r2))<1e-8]+=1
for k,v in sorted(cnt.items(),key=str): print(k,v)
