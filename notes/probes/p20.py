import numpy as np, warnings, cvxpy, time
warnings.filterwarnings('ignore')
from toqito.channel_metrics import completely_bounded_trace_norm, diamond_distance, completely_bounded_spectral_norm
from toqito.channel_ops import kraus_to_choi
rng=np.random.default_rng(20)
def cplx(*s): return rng.normal(size=s)+1j*rng.normal(size=s)
def chan(d,r):
    V=np.linalg.qr(cplx(d*r,d))[0]; return [V[i*d:(i+1)*d,:] for i in range(r)]
def cb_primal(J,d):
    n=d*d
    X=cvxpy.Variable((n,n),complex=True); r0=cvxpy.Variable((d,d),hermitian=True); r1=cvxpy.Variable((d,d),hermitian=True)
    cons=[cvxpy.bmat([[cvxpy.kron(r0,np.eye(d)),X],[X.H,cvxpy.kron(r1,np.eye(d))]])>>0, r0>>0,r1>>0,cvxpy.real(cvxpy.trace(r0))==1,cvxpy.real(cvxpy.trace(r1))==1]
    p=cvxpy.Problem(cvxpy.Maximize(cvxpy.real(cvxpy.trace(J.conj().T@X))),cons); p.solve(solver='CLARABEL'); return p.value
def achieved(J,d,trials=200):
    best=0
    for _ in range(trials):
        psi=cplx(d,d); psi/=np.linalg.norm(psi)   # |psi> = sum psi_ij |i>_R|j>_in ; rho_in = psi^T conj(psi)
        # (id (x) Phi)(|psi><psi|) = (A (x) I) J (A^† (x) I) with A = psi (R<-in map): use A = psi
        A=np.kron(psi,np.eye(d)); out=A@J@A.conj().T
        best=max(best,np.abs(np.linalg.eigvalsh((out+out.conj().T)/2)).sum())
    return best
for t in range(8):
    d=2 if t<6 else 3
    J1=kraus_to_choi(chan(d,int(rng.integers(1,4)))); J2=kraus_to_choi(chan(d,int(rng.integers(1,4))))
    c=rng.normal()
    J=J1-J2 if t%2==0 else J1-c*J2
    t0=time.time(); v=completely_bounded_trace_norm(J); dt=time.time()-t0
    ref=cb_primal(J,d); ach=achieved(J,d)
    tn=np.abs(np.linalg.eigvalsh(J)).sum()
    print(d,'toqito',round(float(v),5),'refprimal',round(float(ref),5),'achieved',round(float(ach),5),'J1/d',round(tn/d,5),'J1',round(tn,5),round(dt,2))
