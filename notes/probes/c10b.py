import numpy as np, time, warnings, collections
warnings.filterwarnings('ignore')
from toqito.state_opt import state_distinguishability, state_exclusion
from toqito.state_props import is_antidistinguishable, common_quantum_overlap
from toqito.states import trine, bb84, pusey_barrett_rudolph
rng=np.random.default_rng(11)
def rdm(d,r,cp):
    G=rng.normal(size=(d,r))+(1j*rng.normal(size=(d,r)) if cp else 0); R=G@G.conj().T; return R/np.trace(R).real
cnt=collections.Counter(); errs=[]
t0=time.time()
for t in range(60):
    d=int(rng.integers(2,5)); cp=bool(t%2); r=int(rng.integers(1,d+1))
    a=rdm(d,r,cp); b=rdm(d,int(rng.integers(1,d+1)),cp); p=rng.uniform(0.1,0.9)
    hel=0.5+0.5*np.abs(np.linalg.eigvalsh(p*a-(1-p)*b)).sum()
    for pd in ('primal','dual'):
        try:
            v,M=state_distinguishability([a,b],[p,1-p],primal_dual=pd); errs.append(abs(v-hel)); cnt[pd,'ok']+=1
        except Exception as e: cnt[pd,type(e).__name__]+=1
print(cnt, 'max err',max(errs), 'time',time.time()-t0)
print('trine',state_exclusion(trine(),[1/3]*3)[0], is_antidistinguishable(trine()), common_quantum_overlap(trine()))
try: print('bb84',is_antidistinguishable([s for pair in bb84() for s in pair]))
except Exception as e: print('bb84 EXC',repr(e)[:80])
v,M=state_distinguishability([rdm(3,3,True) for _ in range(3)],[0.2,0.3,0.5],primal_dual='dual')
print(type(M[0]), np.array(M[0].value if hasattr(M[0],'value') else M[0]).shape)
v,M=state_distinguishability([rdm(3,3,True) for _ in range(3)],[0.2,0.3,0.5],primal_dual='primal')
print(type(M[0]), np.allclose(sum(np.array(m.value) for m in M),np.eye(3),atol=1e-6))
