import numpy as np, itertools, functools
from toqito.perms import permute_systems, swap, permutation_operator, swap_operator
rng=np.random.default_rng(0)
def kron(*ms): return functools.reduce(np.kron, ms)
bad=0;n=0
for trial in range(300):
    ns=rng.integers(1,5)
    dr=rng.integers(1,4,size=ns); dc=rng.integers(1,4,size=ns)
    if np.prod(dr)<2 or np.prod(dc)<2: continue
    perm=list(rng.permutation(ns))
    fs=[rng.normal(size=(r,c))+1j*rng.normal(size=(r,c)) for r,c in zip(dr,dc)]
    X=kron(*fs)
    exp=kron(*[fs[p] for p in perm])
    try:
        out=permute_systems(X,perm,[list(dr),list(dc)])
    except Exception as e:
        print('EXC',dr,dc,perm,repr(e)); continue
    n+=1
    if out.shape!=exp.shape or not np.allclose(out,exp):
        bad+=1; print('BAD',dr,dc,perm)
    # inverse
    pdr=[dr[p] for p in perm]; pdc=[dc[p] for p in perm]
    back=permute_systems(out,perm,[pdr,pdc],False,True)
    if not np.allclose(back,X): print('BADINV',dr,dc,perm)
    # or is the inverse called with original dims?
    back2=None
    try:
        back2=permute_systems(out,perm,[list(dr),list(dc)],False,True)
        ok2=np.allclose(back2,X)
    except Exception as e: ok2='exc'
print(n,bad)
