import numpy as np, warnings, time, signal
warnings.filterwarnings('ignore')
from toqito.state_metrics import fidelity_of_separability as fos_state
from toqito.channel_metrics import fidelity_of_separability as fos_chan
from toqito.states import pusey_barrett_rudolph, trine, bb84
from toqito.state_props import is_antidistinguishable
from toqito.state_opt import state_exclusion
rng=np.random.default_rng(1)
def rv(d): 
    v=rng.normal(size=d)+1j*rng.normal(size=d); return v/np.linalg.norm(v)
for (da,db,k) in ((2,2,1),(2,2,2),(2,3,1),(3,2,2)):
    v=np.kron(rv(da),rv(db)); rho=np.outer(v,v.conj())
    t0=time.time()
    try: print('state FoS',da,db,k,round(float(fos_state(rho,[da,db],k)),6),round(time.time()-t0,2))
    except Exception as e: print('EXC',da,db,k,repr(e)[:100])
for k in (1,2):
    v=np.kron(np.kron(rv(2),rv(2)),rv(2)); psi=np.outer(v,v.conj())
    t0=time.time()
    try: print('chan FoS',k,round(float(fos_chan(psi,[2,2,2],k)),6),round(time.time()-t0,2))
    except Exception as e: print('EXC chan',k,repr(e)[:100])
try: fos_state(np.eye(4)/4,[2,2],1)
except Exception as e: print('mixed ->',type(e).__name__,str(e)[:50])
for n in (1,2):
    for th in (np.pi/2*0.3, 2*np.arctan(2**(1/n)-1), np.pi/2*0.9):
        S=pusey_barrett_rudolph(n,th)
        try: print('PBR',n,round(th,3),is_antidistinguishable(S), state_exclusion(S,[1]*len(S))[0])
        except Exception as e: print('PBR EXC',n,repr(e)[:80])
