import numpy as np
from toqito.channel_props import *
from toqito.channel_ops import kraus_to_choi
g=0.3
K0=np.array([[1,0],[0,np.sqrt(1-g)]]);K1=np.array([[0,np.sqrt(g)],[0,0]])
for f in ([K0,K1],[[K0],[K1]],[[K0,K0],[K1,K1]],kraus_to_choi([K0,K1])):
    for pred in (is_trace_preserving,is_completely_positive,is_quantum_channel,is_unital,is_herm_preserving,is_positive,is_unitary,choi_rank,is_extremal):
        try: print(pred.__name__, pred(f),end='; ')
        except Exception as e: print(pred.__name__,'EXC',type(e).__name__,str(e)[:50],end='; ')
    print()
# 3 dim flat
rng=np.random.default_rng(0)
G=rng.normal(size=(9,3)); Q,_=np.linalg.qr(G); Ks=[Q[i*3:(i+1)*3] for i in range(3)]
for f in (Ks,[[k] for k in Ks],[[k,k] for k in Ks]):
    try: print(is_trace_preserving(f))
    except Exception as e: print('EXC',repr(e)[:80])
