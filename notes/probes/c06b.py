import numpy as np, functools
from scipy import sparse
from toqito.channels import *
from toqito.channel_ops import apply_channel, kraus_to_choi
from toqito.channel_props import *
from toqito.matrices import pauli
rng=np.random.default_rng(0)
def cplx(*s): return rng.normal(size=s)+1j*rng.normal(size=s)
for q in (1,2):
    p=rng.dirichlet(np.ones(4**q))
    X=cplx(2**q,2**q)
    Phi,out,ks=pauli_channel(p,True,X)
    print(type(Phi))
    J=Phi.toarray() if sparse.issparse(Phi) else np.asarray(Phi)
    P=[np.eye(2),np.array([[0,1],[1,0]]),np.array([[0,-1j],[1j,0]]),np.diag([1,-1])]
    import itertools
    ops=[functools.reduce(np.kron,[P[i] for i in idx]) for idx in itertools.product(range(4),repeat=q)]
    exp=sum(pi*O@X@O.conj().T for pi,O in zip(p,ops))
    print(np.allclose(out,exp),np.allclose(apply_channel(X,J),exp),np.allclose(apply_channel(X,ks),exp), is_quantum_channel(J), is_unital(J))
for bad in ([0.5,0.6,-0.1,0.0],[0.3,0.3,0.3,0.3],[0.5,0.5],[1.0]):
    try: pauli_channel(np.array(bad)); print('accepted',bad)
    except ValueError as e: print('rejected',bad,str(e)[:40])
    except Exception as e: print('OTHER',bad,repr(e))
for d in (2,3,4):
    for p in (0,0.3,1,-0.1,1.2):
        J=depolarizing(d,p); X=cplx(d,d)
        print(d,p,np.allclose(apply_channel(X,J),(1-p)*np.trace(X)*np.eye(d)/d+p*X), is_quantum_channel(J),end=' | ')
        J=dephasing(d,p); print(np.allclose(apply_channel(X,J),(1-p)*np.diag(np.diag(X))+p*X), is_quantum_channel(J))
for d in (2,3,4):
    for k in (1,2,3):
        J=reduction(d,k); X=cplx(d,d); print(d,k,np.allclose(apply_channel(X,J),k*np.trace(X)*np.eye(d)-X), is_completely_positive(J), is_positive(J))
