import numpy as np
from toqito.channel_ops import apply_channel, kraus_to_choi, choi_to_kraus, partial_channel, natural_representation
rng=np.random.default_rng(3)
def cplx(*s): return rng.normal(size=s)+1j*rng.normal(size=s)
def ref_apply(X,As,Bs): return sum(A@X@B.conj().T for A,B in zip(As,Bs))
for t in range(200):
    n=int(rng.integers(1,4)); dims=[int(x) for x in rng.integers(1,4,size=n)]
    k=int(rng.integers(1,n+1))  # 1-indexed target
    din=dims[k-1]; dout=int(rng.integers(1,4)); r=int(rng.integers(1,4))
    cp=bool(rng.integers(2))
    As=[cplx(dout,din) for _ in range(r)]
    Bs=As if cp else [cplx(dout,din) for _ in range(r)]
    N=int(np.prod(dims))
    if N<2: continue
    X=cplx(N,N)
    pre=int(np.prod(dims[:k-1])); post=int(np.prod(dims[k:]))
    FA=[np.kron(np.kron(np.eye(pre),A),np.eye(post)) for A in As]; FB=[np.kron(np.kron(np.eye(pre),B),np.eye(post)) for B in Bs]
    exp=ref_apply(X,FA,FB)
    f = As if cp else [[a,b] for a,b in zip(As,Bs)]
    try:
        o=partial_channel(X,f,k,dims)
        if not np.allclose(o,exp): print('BADPC kraus',dims,k,dout,r,cp)
    except Exception as e: print('EXCPC kraus',dims,k,dout,r,cp,repr(e))
    try:
        J=kraus_to_choi(f)
        o=partial_channel(X,J,k,dims)
        if o.shape!=exp.shape or not np.allclose(o,exp): print('BADPC choi',dims,k,dout,r,cp)
    except Exception as e: print('EXCPC choi',dims,k,dout,r,cp,repr(e))
# natural rep
for t in range(100):
    din,dout,r=[int(x) for x in rng.integers(1,5,size=3)]
    As=[cplx(dout,din) for _ in range(r)]
    X=cplx(din,din)
    K=natural_representation(As)
    if not np.allclose(K@X.reshape(-1),ref_apply(X,As,As).reshape(-1)): print('BADNAT',din,dout,r)
print('done')
