import numpy as np, itertools, functools
from scipy import sparse
from toqito.perms import permute_systems, swap, permutation_operator, swap_operator
rng=np.random.default_rng(1)
def kron(*ms): return functools.reduce(np.kron, ms)
# vectors
for trial in range(200):
    ns=rng.integers(2,5)
    d=rng.integers(1,4,size=ns)
    if np.prod(d)<2: continue
    perm=list(rng.permutation(ns))
    fs=[rng.normal(size=r) for r in d]
    v=kron(*fs); exp=kron(*[fs[p] for p in perm])
    for form,name in ((v,'1d'),(v.reshape(-1,1),'col')):
        try:
            out=permute_systems(form,perm,list(d))
            if not np.allclose(np.ravel(out),exp): print('BADVEC',name,d,perm)
            inv=permute_systems(np.asarray(out),perm,[d[p] for p in perm],False,True)
            if not np.allclose(np.ravel(inv),v): print('BADVECINV',name,d,perm)
        except Exception as e: print('EXC',name,d,perm,repr(e))
    shapes=(out.shape,)
print('vec out shapes 1d/col/row:',permute_systems(v,perm,list(d)).shape,permute_systems(v.reshape(-1,1),perm,list(d)).shape)
# row_only vs permutation operator
for trial in range(200):
    ns=rng.integers(2,5)
    d=rng.integers(1,4,size=ns)
    if np.prod(d)<2: continue
    perm=list(rng.permutation(ns)); inv=bool(rng.integers(2))
    ncol=rng.integers(2,6)
    X=rng.normal(size=(np.prod(d),ncol))
    P=permutation_operator([int(x) for x in d],[int(p) for p in perm],inv)
    Ps=permutation_operator([int(x) for x in d],[int(p) for p in perm],inv,True)
    out=permute_systems(X,perm,list(d),True,inv)
    if not np.allclose(out,P@X): print('BADROW',d,perm,inv)
    Psd = Ps.toarray() if sparse.issparse(Ps) else Ps
    if not np.allclose(Psd,P): print('BADSPARSE')
    fs=[rng.normal(size=r) for r in d]
    v=kron(*fs)
    pp=perm if not inv else list(np.argsort(perm))
    if not inv and not np.allclose(P@v,kron(*[fs[p] for p in perm])): print('BADPOP')
    if not np.allclose(P@P.T,np.eye(len(P))): print('NOTUNITARY')
print(type(Ps))
# dim None
X=rng.normal(size=(8,8)); print(np.allclose(permute_systems(X,[2,0,1]),permute_systems(X,[2,0,1],[2,2,2])))
X=rng.normal(size=(27,8)); 
try: print(np.allclose(permute_systems(X,[2,0,1]),permute_systems(X,[2,0,1],[[3,3,3],[2,2,2]])))
except Exception as e: print('EXC none rect',repr(e))
X=rng.normal(size=(125,125))
try: print(np.allclose(permute_systems(X,[2,0,1]),permute_systems(X,[2,0,1],[5,5,5])))
except Exception as e: print('EXC none 125',repr(e))
# swap
X=rng.normal(size=(12,12))
print(np.allclose(swap(X,[1,3],[2,3,2]),permute_systems(X,[2,1,0],[2,3,2])))
print(np.allclose(swap(X,[3,1],[2,3,2]),permute_systems(X,[2,1,0],[2,3,2])))
print(np.allclose(swap(X,None,3),permute_systems(X,[1,0],[3,4])))
print(swap_operator([2,3]).shape, np.allclose(swap_operator([2,3]),permutation_operator([2,3],[1,0])))
print(type(swap_operator(3,True)))
X=rng.normal(size=(6,4)) 
print(np.allclose(swap(X,[1,2],[[2,3],[2,2]]),permute_systems(X,[1,0],[[2,3],[2,2]])))
