import numpy as np, warnings, io, contextlib
warnings.filterwarnings('ignore')
from toqito.matrix_ops import vectors_from_gram_matrix, vectors_to_gram_matrix, vec, unvec, tensor
from toqito.matrix_props import *
rng=np.random.default_rng(7)
def cplx(*s): return rng.normal(size=s)+1j*rng.normal(size=s)
for cp in (False,True):
    for (n,d) in ((3,3),(3,5),(4,2),(3,1)):
        V=cplx(d,n) if cp else rng.normal(size=(d,n))
        G=V.conj().T@V
        with contextlib.redirect_stdout(io.StringIO()):
            vs=vectors_from_gram_matrix(G)
        G2=vectors_to_gram_matrix(vs)
        print(cp,n,d,'rank',np.linalg.matrix_rank(G),np.allclose(G2,G),np.allclose(G2,G.conj()))
# degenerate
G=np.diag([1.,1.,0.]); U=np.linalg.qr(cplx(3,3))[0]; G=U@G@U.conj().T
with contextlib.redirect_stdout(io.StringIO()): vs=vectors_from_gram_matrix(G)
print('degenerate',np.allclose(vectors_to_gram_matrix(vs),G),np.allclose(vectors_to_gram_matrix(vs),G.conj()))
# commutant
A=cplx(3,3); C=commutant(A); print('commutant dim',len(C), all(np.allclose(A@c,c@A) for c in C))
U=np.linalg.qr(cplx(4,4))[0]; A=U@np.diag([1,1,2,3])@U.conj().T; C=commutant(A); print(len(C), all(np.allclose(A@c,c@A) for c in C))
C=commutant([np.diag([1,1,2]).astype(float),np.array([[0,1,0],[1,0,0],[0,0,0.]])]); print(len(C))
A=cplx(2,3);X=cplx(3,4);B=cplx(4,2)
print('vec id',np.allclose(vec(A@X@B),np.kron(B.T,A)@vec(X)), np.allclose(unvec(vec(X),X.shape),X))
