import numpy as np, warnings, collections
warnings.filterwarnings('ignore')
from toqito.channel_props import *
from toqito.channel_ops import kraus_to_choi
rng=np.random.default_rng(6)
def cplx(*s): return rng.normal(size=s)+1j*rng.normal(size=s)
def unit(n): return np.linalg.qr(cplx(n,n))[0]
cnt=collections.Counter()
def rec(name,exp,fn):
    try: v=fn()
    except Exception as e: cnt[name,'EXC '+type(e).__name__+' '+str(e)[:40]]+=1; return
    cnt[name,'ok' if bool(v)==exp else f'WRONG exp={exp}']+=1
for t in range(80):
    din=int(rng.integers(1,4)); dout=int(rng.integers(1,4)); r=int(rng.integers(1,4))
    V=np.linalg.qr(cplx(dout*r,din))[0] if dout*r>=din else None
    if V is None: continue
    Ks=[V[i*dout:(i+1)*dout,:] for i in range(r)]   # TP CP
    J=kraus_to_choi(Ks)
    reps={'flat':Ks,'nested':[[k] for k in Ks],'pairs':[[k,k] for k in Ks],'choi':J}
    square = din==dout
    for rn,rep in reps.items():
        if min(J.shape)<2 and rn=='choi': continue
        rec(('cp',rn),True,lambda: is_completely_positive(rep))
        rec(('hp',rn),True,lambda: is_herm_preserving(rep))
        if rn in('pairs',): rec(('tp',rn),True,lambda: is_trace_preserving(rep))
        if rn=='choi': rec(('tp',rn),True,lambda: is_trace_preserving(rep,dim=[din,dout]) )
        if rn=='choi': rec(('qc',rn,square),True,lambda: is_quantum_channel(rep))
        if square: rec(('unital',rn),all(np.allclose(sum(k@k.conj().T for k in Ks),np.eye(dout)) for _ in [0]),lambda: is_unital(rep))
        rec(('rank',rn),True,lambda: choi_rank(rep)==np.linalg.matrix_rank(J))
    # non-CP HP map: Phi1 - t Phi2
    if square and din>=2:
        U=unit(din); J2=kraus_to_choi([np.eye(din)])-1.0*kraus_to_choi([U])
        mineig=np.linalg.eigvalsh(J2)[0]
        if mineig<-1e-2:
            rec(('cp_neg','choi'),False,lambda: is_completely_positive(J2)); rec(('hp_pos','choi'),True,lambda: is_herm_preserving(J2))
            rec(('cp_neg','pairs'),False,lambda: is_completely_positive([[np.eye(din),np.eye(din)],[U,-U]]))
        rec(('unitary','flat'),True,lambda: is_unitary([U])); rec(('unitary','choi'),True,lambda: is_unitary(kraus_to_choi([U]))); rec(('unitary','[[U]]'),True,lambda: is_unitary([[U]]))
        rec(('unitary_neg','mix'),False,lambda: is_unitary(kraus_to_choi([np.sqrt(.5)*U,np.sqrt(.5)*unit(din)])))
        rec(('extremal','mixU'),False,lambda: is_extremal([np.sqrt(.5)*U,np.sqrt(.5)*unit(din)]))
        rec(('extremal','U'),True,lambda: is_extremal(kraus_to_choi([U])))
for k,v in sorted(cnt.items(),key=str): print(k,v)
