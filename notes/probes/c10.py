import numpy as np, time, warnings
warnings.filterwarnings('ignore')
from toqito.state_opt import state_distinguishability, state_exclusion
rng=np.random.default_rng(5)
def rv(d,cp):
    v=rng.normal(size=d)+(1j*rng.normal(size=d) if cp else 0); return v/np.linalg.norm(v)
for t in range(10):
    cp=t%2==1; d=int(rng.integers(2,5)); k=int(rng.integers(2,d+1)) 
    vs=[rv(d,cp) for _ in range(k)]; p=list(rng.dirichlet(np.ones(k)*3))
    out=[]
    for strat in ('min_error','unambiguous'):
        for pd in ('primal','dual'):
            t0=time.time()
            try: v,_=state_distinguishability(vs,p,strategy=strat,primal_dual=pd); out.append(round(float(v),6))
            except Exception as e: out.append(type(e).__name__+str(e)[:40])
    out2=[]
    for strat in ('min_error','unambiguous'):
        for pd in ('primal','dual'):
            try: v,_=state_exclusion(vs,p,strategy=strat,primal_dual=pd); out2.append(round(float(v),6))
            except Exception as e: out2.append(type(e).__name__+str(e)[:40])
    print(d,k,cp,out,out2)
